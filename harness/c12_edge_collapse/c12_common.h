// C12 — Edge collapse preserves the persistent homology of the flag filtration.
//
// One case = one weighted graph (the "base graph", vertices 0..n-1) that is presented to
// Gudhi::collapse::flag_complex_collapse_edges under one or two random vertex numberings, in random edge order and
// orientation, through different range types.  For every call:
//   * every returned edge must be an input edge (as an unordered pair), returned at most once, with a value that is
//     not smaller than its input value;
//   * the flag filtration of the returned graph on the same vertices (same vertex values) must have, in EVERY dimension
//     up to the clique number, the same persistence diagram (multiset of (dim, birth value, death value), zero-length
//     intervals dropped) as the flag filtration of the input graph, over Z_2 and over Z_3.
// Oracle: brute-force clique enumeration (oracle/flag.h for <= 10 vertices, cross-checked with the recursive enumerator
// below which is used for the big graphs) + textbook column reduction (oracle/zp_reduce.h).  No GUDHI code.
// For the mid-size dense graphs (12..40 vertices, mid_case) the enumeration stops at the (D+1)-skeleton and only H_0..H_D are
// compared (D = 2, or 1 from 23 vertices on).
// Value types: double / float, and the integral types int / short / unsigned / long (weights scaled to integers).  Call shapes:
// see Driver.  Inputs never contain a loop or the same edge twice (the Python docstring of reduce_graph calls both undefined).
#ifndef VERIF_C12_COMMON_H_
#define VERIF_C12_COMMON_H_

#include <gudhi/Flag_complex_edge_collapser.h>

#include "common/vh.h"
#include "oracle/zp_reduce.h"
#include "oracle/flag.h"

#include <boost/range/adaptor/transformed.hpp>
#include <boost/range/irange.hpp>

#include <list>
#include <deque>
#include <cmath>
#include <cfloat>
#include <type_traits>

#ifndef C12_BUILD_NAME
#define C12_BUILD_NAME "unnamed"
#endif

namespace c12 {

using oracle::Simplex;
using oracle::Interval;

const double kNaN = std::numeric_limits<double>::quiet_NaN();

// ------------------------------------------------------------------ base graph (vertices 0..n-1)
struct Graph {
  int n = 0;
  std::vector<std::vector<double>> w;  // NaN = no edge
  std::vector<double> vval;            // value of each vertex (<= every incident edge value)
  std::string kind;
  bool has_inf = false;                // some edges have the value +infinity
  void init(int n_) { n = n_; w.assign(n, std::vector<double>(n, kNaN)); vval.assign(n, 0.0); }
  bool has(int i, int j) const { return i != j && w[i][j] == w[i][j]; }
  void set(int i, int j, double v) { w[i][j] = v; w[j][i] = v; }
  void unset(int i, int j) { w[i][j] = kNaN; w[j][i] = kNaN; }
  size_t nedges() const { size_t c = 0; for (int i = 0; i < n; ++i) for (int j = i + 1; j < n; ++j) c += has(i, j); return c; }
  double min_edge() const { double m = std::numeric_limits<double>::infinity(); for (int i = 0; i < n; ++i) for (int j = i + 1; j < n; ++j) if (has(i, j)) m = std::min(m, w[i][j]); return m; }
  bool has_ties() const { std::set<double> s; size_t c = 0; for (int i = 0; i < n; ++i) for (int j = i + 1; j < n; ++j) if (has(i, j)) { s.insert(w[i][j]); ++c; } return s.size() < c; }
};

// ------------------------------------------------------------------ independent clique enumerator (any size)
// every clique {v0 < v1 < ...}: value = max over its vertices and edges.  Returns false when more than cap simplices.
// max_size > 0: only the cliques with at most max_size vertices (a skeleton of the flag complex).
inline bool cliques_rec(const Graph& g, Simplex& cur, double val, const std::vector<int>& cand,
                        std::map<Simplex, double>& cx, size_t cap, int max_size = -1) {
  for (size_t a = 0; a < cand.size(); ++a) {
    int c = cand[a];
    double v = std::max(val, g.vval[c]);
    for (long x : cur) v = std::max(v, g.w[(int)x][c]);
    cur.push_back(c);
    cx[cur] = v;
    if (cx.size() > cap) return false;
    if (max_size < 0 || (int)cur.size() < max_size) {
      std::vector<int> nc;
      for (size_t b = a + 1; b < cand.size(); ++b) if (g.has(c, cand[b])) nc.push_back(cand[b]);
      if (!nc.empty() && !cliques_rec(g, cur, v, nc, cx, cap, max_size)) return false;
    }
    cur.pop_back();
  }
  return true;
}
inline bool clique_complex(const Graph& g, std::map<Simplex, double>& cx, size_t cap, int max_size = -1) {
  cx.clear();
  std::vector<int> all; for (int i = 0; i < g.n; ++i) all.push_back(i);
  Simplex cur;
  return cliques_rec(g, cur, -std::numeric_limits<double>::infinity(), all, cx, cap, max_size);
}

struct Diagrams { std::vector<Interval> d2, d3; int clique = 0; size_t nsimplices = 0; };

// max_dim >= 0: cx is the (max_dim+1)-skeleton of a flag complex; its persistence in dimensions 0..max_dim is that of the whole
// flag complex, the intervals of dimension max_dim+1 are an artefact of the truncation and are dropped.
inline void keep_dims_up_to(std::vector<Interval>& d, int max_dim) {
  std::vector<Interval> k; for (auto& iv : d) if (iv.dim <= max_dim) k.push_back(iv);
  d.swap(k);
}
inline void diagrams_of_complex(const std::map<Simplex, double>& cx, Diagrams& D, int max_dim = -1) {
  std::vector<Simplex> order = oracle::filtration_order(cx);
  std::vector<double> vals; for (auto& s : order) vals.push_back(cx.at(s));
  std::vector<oracle::Cell> cells = oracle::cells_from_simplices(order);
  D.d2 = oracle::diagram(oracle::reduce(cells, 2).bars, vals, true);
  D.d3 = oracle::diagram(oracle::reduce(cells, 3).bars, vals, true);
  if (max_dim >= 0) { keep_dims_up_to(D.d2, max_dim); keep_dims_up_to(D.d3, max_dim); }
  D.clique = 0; for (auto& s : order) D.clique = std::max(D.clique, (int)s.size());
  D.nsimplices = order.size();
}

// returns false if the complex is too large (big configs only), "mismatch" is set when the two enumerators disagree
// max_dim >= 0: only H_0..H_max_dim, from the (max_dim+1)-skeleton
inline bool diagrams_of_graph(const Graph& g, Diagrams& D, size_t cap, bool* enumerators_agree, int max_dim = -1) {
  std::map<Simplex, double> cx;
  if (!clique_complex(g, cx, cap, max_dim >= 0 ? max_dim + 2 : -1)) return false;
  if (g.n <= 10 && enumerators_agree) {
    oracle::WGraph wg = oracle::make_graph(g.n);
    wg.vval = g.vval; wg.w = g.w;
    *enumerators_agree = (oracle::flag_complex(wg, -1) == cx);
  }
  diagrams_of_complex(cx, D, max_dim);
  return true;
}

// first element of the symmetric difference of two sorted diagrams: returns dim, sets which side has the extra interval
inline int first_difference(const std::vector<Interval>& in, const std::vector<Interval>& out, bool& extra_in_output) {
  size_t i = 0, j = 0;
  while (i < in.size() && j < out.size()) {
    if (in[i] == out[j]) { ++i; ++j; continue; }
    if (in[i] < out[j]) { extra_in_output = false; return in[i].dim; }
    extra_in_output = true; return out[j].dim;
  }
  if (i < in.size()) { extra_in_output = false; return in[i].dim; }
  if (j < out.size()) { extra_in_output = true; return out[j].dim; }
  return -1;
}

// ------------------------------------------------------------------ weights
// all values are small multiples of 1/4 (exact in float and double)
struct Weights {
  int mode;     // 0 wide grid, 1 three levels, 2 two levels, 3 all equal, 4 medium grid
  double shift; // may make everything negative
  double draw(vh::Rng& r) const {
    switch (mode) {
      case 0: return shift + 0.25 * (double)r.range(1, 256);
      case 1: return shift + (double)r.range(1, 3);
      case 2: return shift + 0.5 * (double)r.range(1, 2);
      case 3: return shift + 1.0;
      default: return shift + 0.5 * (double)r.range(1, 12);
    }
  }
};
inline Weights random_weights(vh::Rng& r, int forced_mode = -1) {
  Weights w;
  w.mode = forced_mode >= 0 ? forced_mode : (int)r.below(5);
  w.shift = r.chance(1, 5) ? -(double)r.range(1, 70) : (r.chance(1, 4) ? (double)r.range(0, 1000) : 0.0);
  return w;
}

// ------------------------------------------------------------------ small graph generators
inline void gen_complete(vh::Rng& r, Graph& g, const Weights& W) {
  for (int i = 0; i < g.n; ++i) for (int j = i + 1; j < g.n; ++j) g.set(i, j, W.draw(r));
}
inline void gen_sparse(vh::Rng& r, Graph& g, const Weights& W, unsigned num, unsigned den) {
  for (int i = 0; i < g.n; ++i) for (int j = i + 1; j < g.n; ++j) if (r.chance(num, den)) g.set(i, j, W.draw(r));
}
// Rips graph of integer points: weight = squared Euclidean distance (an exact, monotone stand-in for the distance)
inline void gen_rips(vh::Rng& r, Graph& g, int dim, int side, double threshold_quantile, double shift) {
  std::vector<std::vector<int>> pts(g.n, std::vector<int>(dim));
  for (auto& p : pts) for (auto& x : p) x = (int)r.below(side + 1);
  std::vector<double> all;
  for (int i = 0; i < g.n; ++i) for (int j = i + 1; j < g.n; ++j) {
    double d = 0; for (int k = 0; k < dim; ++k) d += (double)(pts[i][k] - pts[j][k]) * (pts[i][k] - pts[j][k]);
    g.set(i, j, d + shift); all.push_back(d + shift);
  }
  if (all.empty()) return;
  std::sort(all.begin(), all.end());
  double thr = all[std::min(all.size() - 1, (size_t)(threshold_quantile * (double)all.size()))];
  for (int i = 0; i < g.n; ++i) for (int j = i + 1; j < g.n; ++j) if (g.w[i][j] > thr) g.unset(i, j);
}
// complete multipartite graph with parts of size <= 2 (cross-polytope boundary = sphere) possibly with a few extra edges
inline void gen_cross_polytope(vh::Rng& r, Graph& g, const Weights& W) {
  for (int i = 0; i < g.n; ++i) for (int j = i + 1; j < g.n; ++j) if (!(j == i + 1 && i % 2 == 0)) g.set(i, j, W.draw(r));
  // antipodal edges arriving late fill the sphere
  double late = 0; for (int i = 0; i < g.n; ++i) for (int j = i + 1; j < g.n; ++j) if (g.has(i, j)) late = std::max(late, g.w[i][j]);
  for (int i = 0; i + 1 < g.n; i += 2) if (r.chance(1, 3)) g.set(i, i + 1, r.chance(1, 2) ? late + (double)r.range(0, 3) : W.draw(r));
}
// cycle with light edges plus heavier chords
inline void gen_cycle_chords(vh::Rng& r, Graph& g, const Weights& W) {
  double base = W.shift + 1.0;
  for (int i = 0; i < g.n; ++i) if (g.n > 2 || i == 0) g.set(i, (i + 1) % g.n, r.chance(1, 4) ? base + 0.25 * (double)r.range(0, 4) : base);
  int chords = (int)r.below((uint64_t)g.n * 2 + 1);
  for (int c = 0; c < chords; ++c) {
    int i = (int)r.below(g.n), j = (int)r.below(g.n);
    if (i == j || g.has(i, j)) continue;
    g.set(i, j, base + 1.0 + 0.5 * (double)r.range(0, 6));
  }
}
// vertex-driven weights: w(i,j) = max(a_i, a_j) (lower-star like, plenty of dominated edges and ties)
inline void gen_vertex_driven(vh::Rng& r, Graph& g, const Weights& W, unsigned num, unsigned den) {
  std::vector<double> a(g.n); for (auto& x : a) x = W.draw(r);
  for (int i = 0; i < g.n; ++i) for (int j = i + 1; j < g.n; ++j) if (r.chance(num, den)) g.set(i, j, std::max(a[i], a[j]));
}

const char* const kKinds[] = {"complete_wide", "complete_ties", "all_equal", "sparse_wide", "sparse_ties", "rips_int",
                              "cross_polytope", "cycle_chords", "vertex_driven", "tiny"};
const int kNumKinds = 10;

inline void gen_small(vh::Rng& r, Graph& g, int max_n, bool allow_inf = true) {
  // kinds that tend to produce delayed (value-raised) edges are drawn more often
  static const int kKindWeight[kNumKinds] = {3, 3, 1, 3, 3, 2, 3, 1, 1, 1};
  int tot = 0; for (int w : kKindWeight) tot += w;
  int pick = (int)r.below((uint64_t)tot), kind = 0;
  while (pick >= kKindWeight[kind]) { pick -= kKindWeight[kind]; ++kind; }
  int n;
  // sizes: mostly 5..max_n
  if (kind == 9) n = (int)r.range(2, 4);
  else { n = (int)r.range(4, max_n); if (r.chance(1, 2)) n = std::max(n, (int)r.range(4, max_n)); }
  g.init(n);
  g.kind = kKinds[kind];
  const unsigned dens[][2] = {{3, 10}, {1, 2}, {7, 10}, {9, 10}};
  const unsigned* dn = dens[r.below(4)];
  switch (kind) {
    case 0: gen_complete(r, g, random_weights(r, r.chance(1, 2) ? 0 : 4)); break;
    case 1: gen_complete(r, g, random_weights(r, r.chance(1, 2) ? 1 : 2)); break;
    case 2: if (r.chance(1, 2)) gen_complete(r, g, random_weights(r, 3)); else gen_sparse(r, g, random_weights(r, 3), dn[0], dn[1]); break;
    case 3: gen_sparse(r, g, random_weights(r, r.chance(1, 2) ? 0 : 4), dn[0], dn[1]); break;
    case 4: gen_sparse(r, g, random_weights(r, r.chance(1, 2) ? 1 : 2), dn[0], dn[1]); break;
    case 5: gen_rips(r, g, (int)r.range(1, 3), (int)r.range(1, 4), 0.35 + 0.65 * r.unit(), r.chance(1, 4) ? -(double)r.range(1, 9) : 0.0); break;
    case 6: gen_cross_polytope(r, g, random_weights(r)); break;
    case 7: gen_cycle_chords(r, g, random_weights(r)); break;
    case 8: gen_vertex_driven(r, g, random_weights(r, r.chance(1, 2) ? 4 : 1), dn[0] + 2 > dn[1] ? dn[1] : dn[0] + 2, dn[1]); break;
    default: if (r.chance(1, 2)) gen_complete(r, g, random_weights(r)); else gen_sparse(r, g, random_weights(r), 1, 2); break;
  }
  // now and then some edges only appear "at infinity"
  if (r.chance(1, 12) && allow_inf) {
    g.has_inf = true;
    for (int i = 0; i < g.n; ++i) for (int j = i + 1; j < g.n; ++j) if (g.has(i, j) && r.chance(1, 5)) g.set(i, j, std::numeric_limits<double>::infinity());
  }
}

// vertex values: mode 0: all equal to the smallest edge value; 1: all equal, strictly below; 2: per vertex, anything not larger
// than the smallest incident edge (a valid filtration; the documentation says vertex values are irrelevant to the function)
inline int assign_vertex_values(vh::Rng& r, Graph& g) {
  double m = g.min_edge();
  if (!(m < std::numeric_limits<double>::infinity())) m = 0.0;
  int mode = (int)r.below(4); if (mode == 3) mode = 0;
  for (int i = 0; i < g.n; ++i) {
    if (mode == 0) g.vval[i] = m;
    else if (mode == 1) g.vval[i] = m - 1.0;
    else {
      double mi = std::numeric_limits<double>::infinity();
      for (int j = 0; j < g.n; ++j) if (g.has(i, j)) mi = std::min(mi, g.w[i][j]);
      if (!(mi < std::numeric_limits<double>::infinity())) mi = m;
      g.vval[i] = mi - 0.5 * (double)r.range(0, 3);
    }
  }
  return mode;
}

// ------------------------------------------------------------------ value types
template <class T> struct TypeName;
template <> struct TypeName<float> { static const char* get() { return "float"; } };
template <> struct TypeName<double> { static const char* get() { return "double"; } };
template <> struct TypeName<short> { static const char* get() { return "short"; } };
template <> struct TypeName<int> { static const char* get() { return "int"; } };
template <> struct TypeName<unsigned> { static const char* get() { return "unsigned"; } };
template <> struct TypeName<long> { static const char* get() { return "long"; } };

// signature prefix.  Floating-point value types keep the historical form (known findings are keyed on it), integral value
// types (a class of its own: numeric_limits<Filt>::infinity() is 0 for them) are named.
template <class Filt>
inline std::string sig_base(const char* vtype, bool ties) {
  std::string s = std::string("vtype=") + vtype;
  if (std::is_integral<Filt>::value) s += std::string(",ftype=") + TypeName<Filt>::get() + ",integral_values";
  return s + ",ties=" + (ties ? "1" : "0");
}

// Makes every weight of g exactly representable in Filt (the function does no arithmetic on the values, so they come back
// unchanged or replaced by another input value).  Integral Filt: the generators produce multiples of 1/4 -> multiply by 4;
// unsigned: translate so that every weight is >= 0.  Floating Filt: round to Filt (a no-op for the dyadic generators).
template <class Filt>
inline void fit_weights(Graph& g) {
  const double inf = std::numeric_limits<double>::infinity();
  if (std::is_integral<Filt>::value) {
    double mn = inf;
    for (int i = 0; i < g.n; ++i) for (int j = i + 1; j < g.n; ++j) if (g.has(i, j)) mn = std::min(mn, 4.0 * g.w[i][j]);
    double off = (std::is_unsigned<Filt>::value && mn < 0) ? -mn : 0.0;
    for (int i = 0; i < g.n; ++i) for (int j = i + 1; j < g.n; ++j) if (g.has(i, j)) g.set(i, j, 4.0 * g.w[i][j] + off);
  } else {
    for (int i = 0; i < g.n; ++i) for (int j = i + 1; j < g.n; ++j) if (g.has(i, j)) g.set(i, j, (double)(Filt)g.w[i][j]);
  }
}

// ------------------------------------------------------------------ special floating-point weights (double configs)
// The function only compares values, so nothing in the property text excludes these: -inf, +-0.0 mixed, +-DBL_MAX, denormals,
// reals that are not dyadic.  The structure of g is kept, the weights are redrawn.
const char* const kSpecialKinds[] = {"neg_inf", "signed_zeros", "huge_tiny", "non_dyadic", "mixed"};
inline int respecialize(vh::Rng& r, Graph& g) {
  const double inf = std::numeric_limits<double>::infinity();
  int cls = (int)r.below(5);
  static const std::vector<double> zeros = {0.0, -0.0};
  static const std::vector<double> zeros_pm = {0.0, -0.0, 0.0, -0.0, 1.0, -1.0};
  static const std::vector<double> huge = {DBL_MAX, -DBL_MAX, DBL_MIN, -DBL_MIN, DBL_TRUE_MIN, -DBL_TRUE_MIN, 2 * DBL_TRUE_MIN, 0.0, -0.0};
  static const std::vector<double> nd = {0.1, 0.2, 0.30000000000000004, 0.3, 1.0 / 3, 2.0 / 3, -0.1, 0.7};
  static const std::vector<double> mixed = {-inf, inf, 0.0, -0.0, DBL_MAX, -DBL_MAX, 0.1, 0.30000000000000004, 0.3, DBL_TRUE_MIN, 1.0, -1.0};
  const unsigned keep = (unsigned)r.below(3);  // 0: every weight redrawn; 1, 2: one third / two thirds keep their dyadic value
  const bool reals = r.chance(1, 2);
  for (int i = 0; i < g.n; ++i) for (int j = i + 1; j < g.n; ++j) if (g.has(i, j)) {
    if (cls != 1 && r.below(3) < keep) continue;
    double v;
    switch (cls) {
      case 0: v = r.chance(1, 3) ? -inf : (r.chance(1, 6) ? -DBL_MAX : g.w[i][j]); break;
      case 1: v = keep == 0 ? r.pick(zeros) : r.pick(zeros_pm); break;
      case 2: v = r.pick(huge); break;
      case 3: v = reals && r.chance(1, 2) ? 6.0 * r.unit() - 3.0 : r.pick(nd); break;
      default: v = r.pick(mixed); break;
    }
    g.set(i, j, v);
  }
  g.has_inf = false;
  for (int i = 0; i < g.n; ++i) for (int j = i + 1; j < g.n; ++j) if (g.has(i, j) && g.w[i][j] == inf) g.has_inf = true;
  return cls;
}
inline void count_special_weights(vh::Case& c, const Graph& g) {
  const double inf = std::numeric_limits<double>::infinity();
  size_t ninf = 0, pz = 0, nz = 0, hg = 0, den = 0, ndy = 0;
  for (int i = 0; i < g.n; ++i) for (int j = i + 1; j < g.n; ++j) if (g.has(i, j)) {
    double v = g.w[i][j];
    if (v == -inf) ++ninf;
    else if (v == 0.0) { if (std::signbit(v)) ++nz; else ++pz; }
    else if (std::fabs(v) == DBL_MAX) ++hg;
    else if (std::fabs(v) < DBL_MIN) ++den;
    else if (v != inf && v * 4.0 != std::floor(v * 4.0)) ++ndy;
  }
  if (ninf) { c.count("weights.neg_inf", ninf); c.count("case.with_neg_inf_edges"); }
  if (pz && nz) c.count("case.with_mixed_signed_zeros");
  if (hg) { c.count("weights.dbl_max", hg); c.count("case.with_dbl_max_edges"); }
  if (den) c.count("weights.denormal", den);
  if (ndy) { c.count("weights.non_dyadic", ndy); c.count("case.with_non_dyadic_edges"); }
}

#ifdef GUDHI_COLLAPSE_USE_DENSE_ARRAY
const bool kDenseBuild = true;
#else
const bool kDenseBuild = false;
#endif

// ------------------------------------------------------------------ one call of the function under test
struct CallStats { size_t in = 0, out = 0, delayed = 0, removed = 0; };

// Ext = false: the documented one-argument overload on lvalue vector / list / deque.  Ext = true: also the call shapes of the
// Python binding, of Simplex_tree_interface and of the utilities (each shape is one more instantiation of the sorter and of the
// collapser, hence only in a few configs).
template <class Vertex, class Filt, bool Ext = false>
struct Driver {
  typedef std::tuple<Vertex, Vertex, Filt> FE;

  // Presents base graph g under numbering label[] (injective, values >= 0).  Fills the returned graph (base indices).
  // Returns false after reporting a violation.
  static bool call(vh::Case& c, const Graph& g, const std::vector<long>& label, const std::string& sigbase,
                   Graph& outg, CallStats& st) {
    vh::Rng& r = c.rng;
    std::vector<FE> in;
    for (int i = 0; i < g.n; ++i) for (int j = i + 1; j < g.n; ++j) if (g.has(i, j)) {
      Vertex a = (Vertex)label[i], b = (Vertex)label[j];
      if (r.chance(1, 2)) std::swap(a, b);
      in.emplace_back(a, b, (Filt)g.w[i][j]);
    }
    r.shuffle(in);
    {
      std::ostringstream o; o.precision(17);
      o << "collapse edges(" << in.size() << "):";
      for (auto& e : in) o << " " << (long)std::get<0>(e) << "-" << (long)std::get<1>(e) << ":" << (double)std::get<2>(e);
      c.log(o.str());
    }
    long maxlabel = 0; for (long l : label) maxlabel = std::max(maxlabel, l);
    std::vector<int> inv((size_t)maxlabel + 1, -1);
    for (int i = 0; i < g.n; ++i) inv[(size_t)label[i]] = i;

    std::vector<FE> out;
    unsigned cont = (unsigned)r.below(Ext ? 9 : 4);
    if (cont == 0 || cont == 3) { const std::vector<FE>& cin = in; c.log("  as const std::vector&"); out = Gudhi::collapse::flag_complex_collapse_edges(cin); c.count("container.vector"); }
    else if (cont == 1) { std::list<FE> l(in.begin(), in.end()); c.log("  as std::list&"); out = Gudhi::collapse::flag_complex_collapse_edges(l); c.count("container.list"); }
    else if (cont == 2) { std::deque<FE> d(in.begin(), in.end()); c.log("  as std::deque&"); out = Gudhi::collapse::flag_complex_collapse_edges(d); c.count("container.deque"); }
    else if constexpr (Ext) {
    if (cont == 4 || cont == 8) {
      auto identity = [](auto const& d) { return d; };
      // what the Python binding does: an rvalue vector (moved into the sorter, no copy) and the two-argument overload
      std::vector<FE> copy = in; c.log("  as std::vector&& with the two-argument overload (identity)");
      out = Gudhi::collapse::flag_complex_collapse_edges(std::move(copy), identity); c.count("container.rvalue_vector_2arg");
    } else if (cont == 5) {
      // a range whose iterators yield prvalue tuples (the utilities pass boost-transformed ranges)
      c.log("  as boost::irange | transformed (prvalue tuples)");
      auto rg = boost::irange<std::size_t>(0, in.size()) |
                boost::adaptors::transformed([&in](std::size_t k) { return std::make_tuple(std::get<0>(in[k]), std::get<1>(in[k]), std::get<2>(in[k])); });
      out = Gudhi::collapse::flag_complex_collapse_edges(rg); c.count("container.prvalue_transformed");
    } else if (cont == 6) {
      auto identity = [](auto const& d) { return d; };
      std::list<FE> l(in.begin(), in.end()); c.log("  as std::list&& with the two-argument overload (identity)");
      out = Gudhi::collapse::flag_complex_collapse_edges(std::move(l), identity); c.count("container.rvalue_list_2arg");
    } else {
      // what Simplex_tree_interface::collapse_edges does
      std::vector<FE> copy = in; c.log("  as std::vector&& with the one-argument overload");
      out = Gudhi::collapse::flag_complex_collapse_edges(std::move(copy)); c.count("container.rvalue_vector_1arg");
    }
    }
    c.count("call.total");
    c.count(std::string("call.build.") + C12_BUILD_NAME);
    if (std::is_integral<Filt>::value) c.count(std::string("call.integral_values.build.") + C12_BUILD_NAME);
    if (in.size() >= 500) c.count(std::string("call.edges_ge_500.build.") + C12_BUILD_NAME);
    {
      std::ostringstream o; o.precision(17);
      o << "  returned(" << out.size() << "):";
      for (auto& e : out) o << " " << (long)std::get<0>(e) << "-" << (long)std::get<1>(e) << ":" << (double)std::get<2>(e);
      c.log(o.str());
    }

    outg.init(g.n);
    outg.vval = g.vval;
    outg.kind = g.kind;
    st = CallStats();
    st.in = in.size(); st.out = out.size();
    for (auto& e : out) {
      long a = (long)std::get<0>(e), b = (long)std::get<1>(e);
      double f = (double)std::get<2>(e);
      int i = (a >= 0 && a <= maxlabel) ? inv[(size_t)a] : -1, j = (b >= 0 && b <= maxlabel) ? inv[(size_t)b] : -1;
      c.count("cmp.output.edge_of_input");
      if (i < 0 || j < 0 || !g.has(i, j)) {
        c.violation("output.edge_of_input", sigbase + ",not_an_input_edge", "returned edge " + vh::str(a) + "-" + vh::str(b) + ":" + vh::str(f) + " is not an edge of the input");
        return false;
      }
      if (outg.has(i, j)) {
        c.violation("output.edge_unique", sigbase + ",returned_twice", "edge " + vh::str(a) + "-" + vh::str(b) + " returned twice (" + vh::str(outg.w[i][j]) + " and " + vh::str(f) + ")");
        return false;
      }
      if (!(f >= g.w[i][j])) {  // also catches NaN
        c.violation("output.value_not_smaller", sigbase + ",value_decreased", "edge " + vh::str(a) + "-" + vh::str(b) + " input value " + vh::str(g.w[i][j]) + " returned with " + vh::str(f));
        return false;
      }
      if (f > g.w[i][j]) st.delayed++;
      outg.set(i, j, f);
    }
    st.removed = st.in - st.out;
    c.count("edges.in", st.in); c.count("edges.out", st.out); c.count("edges.delayed", st.delayed); c.count("edges.removed", st.removed);
    c.count("edges.kept_unchanged", st.out - st.delayed);
    if (st.delayed) { c.count("call.some_delayed"); c.count("call.some_delayed.kind." + g.kind); }
    c.count("call.kind." + g.kind);
    if (st.removed) c.count("call.some_removed");
    if (st.delayed && st.removed) c.count("call.delayed_and_removed");
    if (!st.delayed && !st.removed) c.count("call.unchanged");
    return true;
  }
};

inline std::string changed_class(const CallStats& st) {
  return st.delayed && st.removed ? "both" : st.delayed ? "delayed" : st.removed ? "removed" : "none";
}

// compares the diagrams of the input and of the returned graph.  false after a violation.
inline bool compare_diagrams(vh::Case& c, const Diagrams& din, const Diagrams& dout, const std::string& sigbase,
                             const CallStats& st, const Graph& g) {
  for (int which = 0; which < 2; ++which) {
    const std::vector<Interval>& a = which ? din.d3 : din.d2;
    const std::vector<Interval>& b = which ? dout.d3 : dout.d2;
    const char* check = which ? "diagram.z3" : "diagram.z2";
    c.count(std::string("cmp.") + check);
    if (!(a == b)) {
      bool extra = false; int dim = first_difference(a, b, extra);
      c.violation(check, sigbase + ",dim=" + vh::str(dim) + (extra ? ",extra_interval_after" : ",interval_lost") + ",changed=" + changed_class(st),
                  "kind=" + g.kind + " n=" + vh::str(g.n) + " flag persistence differs in dimension " + vh::str(dim) + "\n input : " + oracle::show(a) + "\n output: " + oracle::show(b));
      return false;
    }
  }
  return true;
}

inline void count_diagram(vh::Case& c, const Diagrams& d) {
  std::vector<int> finite(12, 0), ess(12, 0);
  for (auto& iv : d.d2) if (iv.dim < 12) { if (iv.death < std::numeric_limits<double>::infinity()) finite[iv.dim]++; else ess[iv.dim]++; }
  for (int k = 0; k < 12; ++k) {
    if (finite[k]) c.count("bars.finite.dim" + vh::str(k), finite[k]);
    if (ess[k]) c.count("bars.essential.dim" + vh::str(k), ess[k]);
  }
  if (!(d.d2 == d.d3)) c.count("graph.torsion_z2_ne_z3");
}

inline uint64_t dbits(double d) { uint64_t u; std::memcpy(&u, &d, sizeof u); return u; }
inline uint64_t graph_hash(const Graph& g) {
  uint64_t h = 1469598103934665603ULL;
  h = vh::hash_mix(h, (uint64_t)g.n);
  for (int i = 0; i < g.n; ++i) {
    h = vh::hash_mix(h, dbits(g.vval[i]));
    for (int j = i + 1; j < g.n; ++j) if (g.has(i, j)) { h = vh::hash_mix(h, ((uint64_t)i << 20) ^ (uint64_t)j); h = vh::hash_mix(h, dbits(g.w[i][j])); }
  }
  return h;
}

inline std::vector<long> random_labels(vh::Rng& r, int n, long max_label, bool& sparse) {
  // compact: a permutation of 0..n-1 ; sparse: n distinct labels in [0, max_label]
  std::vector<long> lab;
  sparse = max_label >= n && r.chance(1, 2);
  if (!sparse) { for (int i = 0; i < n; ++i) lab.push_back(i); }
  else {
    long top = (long)r.range(n, max_label);
    std::vector<long> pool; for (long x = 0; x <= top; ++x) pool.push_back(x);
    r.shuffle(pool); lab.assign(pool.begin(), pool.begin() + n);
  }
  r.shuffle(lab);
  return lab;
}

// n distinct labels that contain the largest value of the vertex type; the others are near the top or near 0
inline std::vector<long> top_labels(vh::Rng& r, int n, long type_max) {
  std::set<long> ls; ls.insert(type_max);
  const long span = std::min<long>(type_max, 120);
  while ((int)ls.size() < n) ls.insert(r.chance(1, 2) ? type_max - (long)r.range(1, span) : (long)r.range(0, span));
  std::vector<long> lab(ls.begin(), ls.end());
  r.shuffle(lab);
  return lab;
}

// ------------------------------------------------------------------ small-graph case
// special: the weights are redrawn from the special floating-point values (Filt = double only)
template <class Vertex, class Filt, bool Ext = false>
void small_case(vh::Case& c, const char* vtype, bool special = false) {
  vh::Rng& r = c.rng;
  Graph g;
  gen_small(r, g, c.thorough && r.chance(1, 3) ? 11 : 10, !std::is_integral<Filt>::value);
  if (g.n > 10 && g.nedges() > 46) { c.count("skip.too_dense_11"); return; }
  if (special) { int cls = respecialize(r, g); c.count(std::string("case.special.") + kSpecialKinds[cls]); c.log(std::string("special weights: ") + kSpecialKinds[cls]); count_special_weights(c, g); }
  fit_weights<Filt>(g);
  if (std::is_integral<Filt>::value) { c.count("case.integral_values"); c.count(std::string("case.integral_values.") + TypeName<Filt>::get()); if (g.nedges() && g.min_edge() < 0) c.count("case.integral_values.negative"); }
  int vmode = assign_vertex_values(r, g);
  const bool ties = g.has_ties();
  c.count(std::string("case.kind.") + g.kind);
  c.count("case.n." + vh::str(g.n));
  c.count("case.vmode." + vh::str(vmode));
  if (ties) c.count("case.with_ties");
  if (g.has_inf) c.count("case.with_inf_edges");
  {
    std::ostringstream o; o.precision(17);
    o << "graph kind=" << g.kind << " n=" << g.n << " edges=" << g.nedges() << " vertex_values=";
    for (int i = 0; i < g.n; ++i) o << (i ? "," : "") << g.vval[i];
    c.log(o.str());
  }
  if (g.nedges() == 0) {
    // empty input: the result must be empty
    std::vector<std::tuple<Vertex, Vertex, Filt>> none;
    auto out = Gudhi::collapse::flag_complex_collapse_edges(none);
    c.count("case.no_edges");
    if (!out.empty()) c.violation("output.edge_of_input", "empty_input,not_an_input_edge", "edges returned for an empty input");
    return;
  }
  Diagrams din; bool agree = true;
  diagrams_of_graph(g, din, (size_t)-1, &agree);
  c.count("cmp.oracle_crosscheck");
  if (!agree) { c.violation("harness.oracle_mismatch", "clique_enumerators_disagree", "oracle/flag.h and the recursive enumerator disagree (harness bug)"); return; }
  c.count("case.clique." + vh::str(din.clique));
  c.count("oracle.simplices", din.nsimplices);
  count_diagram(c, din);

  std::string sigbase = sig_base<Filt>(vtype, ties);
  bool changed = false, any_delayed = false, any_removed = false;
  Graph cur = g; Diagrams dcur = din;
  const int ncalls = 2;
  // labels at the top of the vertex type: always possible for 1-byte types; for 2-byte types only where the neighbour table is
  // not a dense (max label + 1)^2 array
  const long type_max = (long)std::numeric_limits<Vertex>::max();
  const bool top_ok = sizeof(Vertex) == 1 || (sizeof(Vertex) == 2 && !kDenseBuild);
  for (int k = 0; k < ncalls; ++k) {
    bool sparse = false;
    std::vector<long> lab;
    if (top_ok && r.chance(1, sizeof(Vertex) == 1 ? 2 : 4)) {
      lab = top_labels(r, cur.n, type_max);
      c.count("numbering.top_of_type"); c.count(std::string("numbering.top_of_type.") + vtype);
    } else {
      lab = random_labels(r, cur.n, sizeof(Vertex) == 2 ? 300 : 60, sparse);
      c.count(sparse ? "numbering.sparse" : "numbering.compact");
    }
    Graph outg; CallStats st;
    if (!Driver<Vertex, Filt, Ext>::call(c, cur, lab, sigbase, outg, st)) return;
    Diagrams dout; bool agree2 = true;
    diagrams_of_graph(outg, dout, (size_t)-1, &agree2);
    if (!agree2) { c.violation("harness.oracle_mismatch", "clique_enumerators_disagree", "oracle/flag.h and the recursive enumerator disagree (harness bug)"); return; }
    if (!compare_diagrams(c, dcur, dout, sigbase, st, cur)) return;
    if (st.delayed || st.removed) changed = true;
    if (st.delayed) any_delayed = true;
    if (st.removed) any_removed = true;
    if (k + 1 < ncalls && r.chance(1, 3)) {
      // second pass: the returned graph is itself a valid input (the documentation suggests applying the function twice)
      c.log("second pass on the returned graph");
      c.count("call.second_pass");
      cur = outg; dcur = dout;
    }
  }
  if (any_delayed) c.count("case.some_delayed");
  if (any_removed) c.count("case.some_removed");
  if (changed && din.clique >= 3) c.nontrivial(graph_hash(g));
  c.sample("{\"history\":\"" + vh::jesc(vh::G().history.substr(0, 900)) + "\"}");
}

// ------------------------------------------------------------------ medium graphs with torsion (Z_2 and Z_3 diagrams differ)
// graph of the barycentric subdivision of a 2-complex given by its triangles: one vertex per face, one edge per proper
// inclusion of faces.  Its clique complex is the subdivision, so it has the homology (and torsion) of the 2-complex.
inline void subdivision_graph(const std::vector<std::vector<int>>& triangles, Graph& g) {
  std::set<std::vector<int>> faces;
  for (auto t : triangles) {
    std::sort(t.begin(), t.end());
    for (unsigned m = 1; m < (1u << t.size()); ++m) { std::vector<int> f; for (size_t k = 0; k < t.size(); ++k) if (m >> k & 1) f.push_back(t[k]); faces.insert(f); }
  }
  std::vector<std::vector<int>> fs(faces.begin(), faces.end());
  g.init((int)fs.size());
  for (size_t a = 0; a < fs.size(); ++a) for (size_t b = 0; b < fs.size(); ++b)
    if (fs[a].size() < fs[b].size() && std::includes(fs[b].begin(), fs[b].end(), fs[a].begin(), fs[a].end())) g.set((int)a, (int)b, 0.0);
}
inline std::vector<std::vector<int>> triangles_rp2() {  // 6-vertex projective plane, H_1 = Z_2
  return {{0,1,2},{0,2,3},{0,3,4},{0,4,5},{0,1,5},{1,2,4},{2,3,5},{1,3,4},{2,4,5},{1,3,5}};
}
inline std::vector<std::vector<int>> triangles_moore3() {  // disk whose boundary wraps three times around the circle 0-1-2: H_1 = Z_3
  std::vector<std::vector<int>> t;
  auto P = [](int i) { return i % 3; };          // boundary 9-gon, identified with the triangle 0,1,2
  auto Q = [](int i) { return 3 + (i % 9); };    // inner ring of 9 distinct vertices
  const int O = 12;                              // centre
  for (int i = 0; i < 9; ++i) { t.push_back({P(i), P(i + 1), Q(i)}); t.push_back({P(i + 1), Q(i), Q(i + 1)}); t.push_back({Q(i), Q(i + 1), O}); }
  return t;
}
inline std::vector<std::vector<int>> triangles_torus() {  // 7-vertex torus
  std::vector<std::vector<int>> t;
  for (int i = 0; i < 7; ++i) { t.push_back({i, (i + 1) % 7, (i + 3) % 7}); t.push_back({i, (i + 2) % 7, (i + 3) % 7}); }
  return t;
}

template <class Vertex, class Filt>
void medium_case(vh::Case& c, const char* vtype) {
  vh::Rng& r = c.rng;
  Graph g;
  unsigned kind = (unsigned)r.below(5);
  if (kind <= 1) { subdivision_graph(triangles_rp2(), g); g.kind = "sd_rp2"; }
  else if (kind <= 3) { subdivision_graph(triangles_moore3(), g); g.kind = "sd_moore_z3"; }
  else { subdivision_graph(triangles_torus(), g); g.kind = "sd_torus"; }
  // weights: random per edge, or driven by random vertex levels
  Weights W = random_weights(r);
  if (r.chance(1, 3)) {
    std::vector<double> a(g.n); for (auto& x : a) x = W.draw(r);
    for (int i = 0; i < g.n; ++i) for (int j = i + 1; j < g.n; ++j) if (g.has(i, j)) g.set(i, j, std::max(a[i], a[j]));
    g.kind += ".vertex_driven";
  } else {
    for (int i = 0; i < g.n; ++i) for (int j = i + 1; j < g.n; ++j) if (g.has(i, j)) g.set(i, j, W.draw(r));
  }
  // extra edges (early or late) create dominated configurations and temporary fillings
  int extra = (int)r.below((uint64_t)g.n);
  for (int e = 0; e < extra; ++e) { int i = (int)r.below(g.n), j = (int)r.below(g.n); if (i != j && !g.has(i, j)) g.set(i, j, W.draw(r) + (r.chance(1, 2) ? 2.0 : 0.0)); }
  fit_weights<Filt>(g);
  if (std::is_integral<Filt>::value) { c.count("case.integral_values"); c.count(std::string("case.integral_values.") + TypeName<Filt>::get()); }
  int vmode = assign_vertex_values(r, g);
  const bool ties = g.has_ties();
  c.count(std::string("case.kind.") + g.kind);
  c.count("case.vmode." + vh::str(vmode));
  if (ties) c.count("case.with_ties");
  {
    std::ostringstream o; o.precision(17);
    o << "graph kind=" << g.kind << " n=" << g.n << " edges=" << g.nedges() << " vertex_values=";
    for (int i = 0; i < g.n; ++i) o << (i ? "," : "") << g.vval[i];
    c.log(o.str());
  }
  Diagrams din;
  if (!diagrams_of_graph(g, din, 30000, nullptr)) { c.count("skip.medium_complex_over_cap"); return; }
  c.count("case.clique." + vh::str(din.clique));
  c.count("oracle.simplices", din.nsimplices);
  count_diagram(c, din);
  std::string sigbase = sig_base<Filt>(vtype, ties);
  bool sparse = false;
  std::vector<long> lab = random_labels(r, g.n, 400, sparse);
  c.count(sparse ? "numbering.sparse" : "numbering.compact");
  Graph outg; CallStats st;
  if (!Driver<Vertex, Filt>::call(c, g, lab, sigbase, outg, st)) return;
  Diagrams dout;
  diagrams_of_graph(outg, dout, (size_t)-1, nullptr);
  if (!compare_diagrams(c, din, dout, sigbase, st, g)) return;
  if (st.delayed) c.count("case.some_delayed");
  if (st.removed) c.count("case.some_removed");
  if (!(din.d2 == din.d3)) { c.count("case.torsion_checked"); if (st.delayed || st.removed) c.count("case.torsion_checked_and_changed"); }
  if ((st.delayed || st.removed) && din.clique >= 3) c.nontrivial(graph_hash(g));
  c.sample("{\"history\":\"" + vh::jesc(vh::G().history.substr(0, 600)) + "\"}");
}

// ------------------------------------------------------------------ big-graph case (> 500 edges: the parallel sort path)
inline size_t add_component(vh::Rng& r, Graph& big, int& next, int max_n, bool allow_inf) {
  Graph s; gen_small(r, s, max_n, allow_inf);
  size_t added = 0;
  for (int i = 0; i < s.n; ++i) for (int j = i + 1; j < s.n; ++j) if (s.has(i, j)) { big.set(next + i, next + j, s.w[i][j]); ++added; }
  next += s.n;
  return added;
}

template <class Vertex, class Filt>
void big_case(vh::Case& c, const char* vtype) {
  vh::Rng& r = c.rng;
  Graph g;
  const size_t cap = 30000;
  unsigned kind = (unsigned)r.below(4);
  const size_t target = (size_t)r.range(510, 640);
  if (kind <= 1) {
    // union of small graphs, optionally tied together by a few extra edges; one global weight scale
    g.kind = kind == 0 ? "big_union" : "big_union_bridged";
    const int maxv = 700;
    g.init(maxv);
    int next = 0;
    size_t ne = 0;
    while (ne < target && next + 8 <= maxv) ne += add_component(r, g, next, 8, !std::is_integral<Filt>::value);
    // shrink to the used vertices
    Graph h; h.init(next);
    for (int i = 0; i < next; ++i) for (int j = i + 1; j < next; ++j) if (g.has(i, j)) h.set(i, j, g.w[i][j]);
    h.kind = g.kind; g = h;
    if (kind == 1) {
      int extra = (int)r.range(5, 40);
      Weights W = random_weights(r, 4);
      for (int e = 0; e < extra; ++e) { int i = (int)r.below(g.n), j = (int)r.below(g.n); if (i != j && !g.has(i, j)) g.set(i, j, W.draw(r)); }
    }
  } else if (kind == 2) {
    g.kind = "big_sparse_blob";
    int n = (int)r.range(45, 80);
    g.init(n);
    Weights W = random_weights(r, (int)r.below(5));
    size_t pairs = (size_t)n * (n - 1) / 2;
    for (int i = 0; i < n; ++i) for (int j = i + 1; j < n; ++j) if (r.below(pairs) < target) g.set(i, j, W.draw(r));
  } else {
    g.kind = "big_rips_blob";
    int n = (int)r.range(60, 110);
    g.init(n);
    size_t pairs = (size_t)n * (n - 1) / 2;
    gen_rips(r, g, (int)r.range(2, 4), (int)r.range(4, 9), std::min(0.95, (double)target / (double)pairs), 0.0);
  }
  fit_weights<Filt>(g);
  if (std::is_integral<Filt>::value) { c.count("case.integral_values"); c.count(std::string("case.integral_values.") + TypeName<Filt>::get()); }
  int vmode = assign_vertex_values(r, g);
  const bool ties = g.has_ties();
  c.count(std::string("case.kind.") + g.kind);
  c.count("case.vmode." + vh::str(vmode));
  if (ties) c.count("case.with_ties");
  if (g.nedges() >= 500) c.count("case.edges_ge_500");
  {
    std::ostringstream o; o.precision(17);
    o << "graph kind=" << g.kind << " n=" << g.n << " edges=" << g.nedges() << " vertex_values=";
    for (int i = 0; i < g.n; ++i) o << (i ? "," : "") << g.vval[i];
    c.log(o.str());
  }
  Diagrams din;
  if (!diagrams_of_graph(g, din, cap, nullptr)) { c.count("skip.big_complex_over_cap"); return; }
  c.count("case.clique." + vh::str(din.clique));
  c.count("oracle.simplices", din.nsimplices);
  count_diagram(c, din);
  std::string sigbase = sig_base<Filt>(vtype, ties);
  bool sparse = false;
  std::vector<long> lab = random_labels(r, g.n, sizeof(Vertex) == 2 ? 2000 : 900, sparse);
  c.count(sparse ? "numbering.sparse" : "numbering.compact");
  Graph outg; CallStats st;
  if (!Driver<Vertex, Filt>::call(c, g, lab, sigbase, outg, st)) return;
  Diagrams dout;
  diagrams_of_graph(outg, dout, (size_t)-1, nullptr);
  if (!compare_diagrams(c, din, dout, sigbase, st, g)) return;
  if (st.delayed) c.count("case.some_delayed");
  if (st.removed) c.count("case.some_removed");
  if ((st.delayed || st.removed) && din.clique >= 3) c.nontrivial(graph_hash(g));
  c.sample("{\"history\":\"" + vh::jesc(vh::G().history.substr(0, 600)) + "\"}");
}

// ------------------------------------------------------------------ mid-size dense graphs (12..40 vertices)
// complete graphs, G(n, p >= 1/2) and Rips graphs of real points: the clique number is far above what the full oracle can
// enumerate, so the comparison is restricted to H_0..H_D computed from the (D+1)-skeleton (D = 2 up to 22 vertices, D = 1
// from 23 vertices on; from 33 vertices on a complete graph has >= 500 edges and the TBB sort really is parallel).
template <class Vertex, class Filt>
void mid_case(vh::Case& c, const char* vtype) {
  vh::Rng& r = c.rng;
  Graph g;
  const unsigned size_class = (unsigned)r.below(6);  // 0..2: 12..22 vertices, 3: 23..32, 4..5: 33..40
  const bool large = size_class >= 4;
  const int D = size_class >= 3 ? 1 : 2;
  const int n = large ? (int)r.range(33, 40) : size_class == 3 ? (int)r.range(23, 32) : (int)r.range(12, 22);
  g.init(n);
  unsigned kind = (unsigned)r.below(4);
  if (kind == 0) {
    g.kind = "mid_complete";
    gen_complete(r, g, random_weights(r, r.chance(1, 3) ? 1 : (r.chance(1, 2) ? 0 : 4)));
  } else if (kind == 1) {
    g.kind = "mid_gnp_dense";
    unsigned num = (unsigned)r.range(50, 95);
    gen_sparse(r, g, random_weights(r, r.chance(1, 3) ? 1 : (r.chance(1, 2) ? 0 : 4)), num, 100);
  } else {
    // points with real coordinates in [0,1]^d, Euclidean distances (square roots: not dyadic), complete or thresholded
    g.kind = kind == 2 ? "mid_rips_real_thresholded" : "mid_rips_real_complete";
    const int pd = (int)r.range(1, 3);
    std::vector<std::vector<double>> pts(n, std::vector<double>(pd));
    for (auto& p : pts) for (auto& x : p) x = r.unit();
    const double thr = kind == 2 ? 0.3 + 0.7 * r.unit() : 1e9;
    for (int i = 0; i < n; ++i) for (int j = i + 1; j < n; ++j) {
      double d = 0; for (int k = 0; k < pd; ++k) d += (pts[i][k] - pts[j][k]) * (pts[i][k] - pts[j][k]);
      d = std::sqrt(d);
      if (d <= thr) g.set(i, j, d);
    }
  }
  fit_weights<Filt>(g);
  if (g.nedges() == 0) { c.count("skip.mid_no_edges"); return; }
  int vmode = assign_vertex_values(r, g);
  const bool ties = g.has_ties();
  c.count(std::string("case.kind.") + g.kind);
  c.count("case.vmode." + vh::str(vmode));
  c.count(large ? "case.mid.n_33_40.h0_h1" : D == 1 ? "case.mid.n_23_32.h0_h1" : "case.mid.n_12_22.h0_h2");
  if (ties) c.count("case.with_ties");
  if (g.nedges() >= 500) c.count("case.mid.edges_ge_500");
  {
    std::ostringstream o; o.precision(17);
    o << "graph kind=" << g.kind << " n=" << g.n << " edges=" << g.nedges() << " homology compared in dimensions 0.." << D << " vertex_values=";
    for (int i = 0; i < g.n; ++i) o << (i ? "," : "") << g.vval[i];
    c.log(o.str());
  }
  Diagrams din;
  diagrams_of_graph(g, din, (size_t)-1, nullptr, D);
  c.count("oracle.simplices", din.nsimplices);
  c.count("oracle.mid.simplices", din.nsimplices);
  if (din.clique == D + 2) c.count("case.mid.skeleton_truncated");
  count_diagram(c, din);
  std::string sigbase = sig_base<Filt>(vtype, ties) + ",mid_dense";
  Graph cur = g; Diagrams dcur = din;
  bool changed = false, any_delayed = false, any_removed = false;
  const int ncalls = r.chance(1, 3) ? 2 : 1;
  for (int k = 0; k < ncalls; ++k) {
    if (k) { c.log("second pass on the returned graph"); c.count("call.second_pass"); c.count("call.mid.second_pass"); }
    bool sparse = false;
    std::vector<long> lab = random_labels(r, cur.n, 200, sparse);
    c.count(sparse ? "numbering.sparse" : "numbering.compact");
    Graph outg; CallStats st;
    if (!Driver<Vertex, Filt>::call(c, cur, lab, sigbase, outg, st)) return;
    c.count("call.mid");
    Diagrams dout;
    diagrams_of_graph(outg, dout, (size_t)-1, nullptr, D);
    if (!compare_diagrams(c, dcur, dout, sigbase, st, cur)) return;
    if (st.delayed || st.removed) changed = true;
    if (st.delayed) any_delayed = true;
    if (st.removed) any_removed = true;
    cur = outg; dcur = dout;
  }
  if (any_delayed) c.count("case.some_delayed");
  if (any_removed) c.count("case.some_removed");
  if (any_removed) c.count("case.mid.some_removed");
  if (changed && din.clique >= 3) c.nontrivial(graph_hash(g));
  c.sample("{\"history\":\"" + vh::jesc(vh::G().history.substr(0, 600)) + "\"}");
}

}  // namespace c12
#endif

_CFG = {"small_int_double": {"quick": 1200, "thorough": 40000},
        "small_short_float": {"quick": 700, "thorough": 20000},
        "small_ushort_float": {"quick": 300, "thorough": 8000},
        "medium_int_double": {"quick": 200, "thorough": 6000},
        "big_int_double": {"quick": 28, "thorough": 600},
        "big_short_float": {"quick": 8, "thorough": 200}}
_CFG_GCC = {"small_int_double": {"thorough": 10000}, "small_ushort_float": {"thorough": 3000}, "medium_int_double": {"thorough": 1000},
            "big_int_double": {"thorough": 100}}
_BUILDS = ["flat", "dense", "flat_tbb", "dense_tbb"]


def _unit(name, defs, libs, variant="asan", cfg=_CFG, tiers=("quick", "thorough")):
    # config names carry the unit name: the orchestrator keys its shard output files by config name only, and the
    # units (same source, different -D) run concurrently
    return {"name": name, "src": ["c12_edge_collapse.cpp"], "variant": variant, "defs": defs + ["C12_BUILD=" + name], "libs": libs,
            "configs": {name + "." + k: v for k, v in cfg.items()}, "chunk": 4, "tiers": list(tiers)}


SPEC = {
    "property": "C12",
    "rule": "one case = one weighted graph handed to Gudhi::collapse::flag_complex_collapse_edges (the documented one-argument overload) "
            "as a shuffled list of randomly oriented edges in a std::vector / std::list / std::deque. small_*: 2..10 vertices (11 sometimes in "
            "thorough) of kinds {complete, sparse G(n,p), all-equal weights, Rips graph of integer points (squared distances), cross-polytope "
            "(spheres up to dimension 4) with late antipodal edges, cycle with chords, vertex-driven weights max(a_i,a_j), tiny}; weights "
            "are multiples of 1/4 on a wide grid, 2-3 levels or all equal (heavy ties), optionally negative or shifted, 1 case in 12 with some "
            "+inf edges; every graph is collapsed twice, under two random vertex numberings (a permutation of 0..n-1 or sparse labels up to "
            "60/300), the second call being on the returned graph itself in 1/3 of the cases; vertex/value types int/double, short/float, "
            "unsigned short/float. medium_*: graph of the barycentric subdivision of the 6-vertex RP^2, of a 13-vertex Moore space M(Z_3,1) or "
            "of the 7-vertex torus (31..79 vertices) with random or vertex-driven weights and random extra edges, so that the Z_2 and Z_3 "
            "diagrams differ. big_*: 510..700 edges (the size from which tbb::parallel_sort really runs in parallel): unions of small graphs "
            "with interleaved labels, optionally bridged, sparse random blobs, Rips blobs of integer points. For every call: each returned "
            "edge is an input edge (unordered), returned once, with value >= its input value; the flag filtration of the returned graph on the "
            "same vertices with the same vertex values (all equal to / below the smallest edge, or per vertex <= its smallest incident edge) "
            "has in every dimension up to the clique number the same diagram {(dim, birth, death)} (zero-length dropped) as that of the input, "
            "over Z_2 and over Z_3; diagrams come from brute-force clique enumeration + textbook column reduction. Same source built with / "
            "without GUDHI_COLLAPSE_USE_DENSE_ARRAY and with / without GUDHI_USE_TBB (4 clang ASan+UBSan builds; 2 more with g++ in thorough). "
            "non-trivial = the clique number is >= 3 and at least one edge was delayed or removed; distinct by hash of (build.config, graph).",
    "assumptions": [
        "vertex values are not an input of the function (its documentation: 'the filtration value of vertices is irrelevant'); the monitor gives "
        "every vertex the same value in the input and in the output filtration, never above its smallest incident input edge",
        "diagrams are compared as multisets of (dimension, birth value, death value) without zero-length intervals; a death at +inf is the same "
        "as no death, so +inf edges are equivalent to absent ones for the comparison",
        "no NaN, no -inf weights, no loops, no repeated edges, vertex labels >= 0; weights are exactly representable in float",
        "only the documented one-argument overload is driven (identity delay)",
        "the order in which equal-valued edges are processed (std::sort / tbb::parallel_sort are not stable) may change the returned edges; "
        "the property is required of whatever is returned, no particular edge list is expected",
        "trusted: oracle/flag.h, oracle/zp_reduce.h, the recursive clique enumerator in c12_common.h (cross-checked against oracle/flag.h on every "
        "graph with <= 10 vertices), libstdc++",
    ],
    "units": [
        _unit("flat", [], []),
        _unit("dense", ["GUDHI_COLLAPSE_USE_DENSE_ARRAY"], []),
        _unit("flat_tbb", ["GUDHI_USE_TBB"], ["-ltbb"]),
        _unit("dense_tbb", ["GUDHI_COLLAPSE_USE_DENSE_ARRAY", "GUDHI_USE_TBB"], ["-ltbb"]),
        _unit("flat_gcc", [], [], "gasan", _CFG_GCC, ("thorough",)),
        _unit("dense_gcc", ["GUDHI_COLLAPSE_USE_DENSE_ARRAY"], [], "gasan", _CFG_GCC, ("thorough",)),
    ],
    # about half of what a normal run measures (quick: 9744 cases, 18400 calls); the two first ones are the >= 30 % of DESIGN.md
    "floors": {
        "quick": {"case.some_delayed": 2900, "case.some_removed": 4300, "call.total": 9000, "call.some_delayed": 3000,
                  "call.some_removed": 7000, "call.delayed_and_removed": 2800, "call.second_pass": 1400,
                  "edges.delayed": 20000, "edges.removed": 90000, "edges.kept_unchanged": 160000,
                  "cmp.diagram.z2": 9000, "cmp.diagram.z3": 9000, "cmp.oracle_crosscheck": 4300, "cmp.output.edge_of_input": 180000,
                  "case.with_ties": 4300, "case.with_inf_edges": 300, "case.torsion_checked": 300, "case.torsion_checked_and_changed": 300,
                  "case.edges_ge_500": 70, "case.vmode.1": 1200, "case.vmode.2": 1200,
                  "numbering.sparse": 4500, "numbering.compact": 4500, "container.list": 2200, "container.deque": 2200, "container.vector": 4500,
                  "case.clique.10": 300, "case.clique.3": 750, "bars.finite.dim1": 14000, "bars.finite.dim2": 900, "bars.finite.dim3": 80,
                  "bars.essential.dim2": 1800, "bars.essential.dim3": 300,
                  "case.kind.complete_ties": 600, "case.kind.complete_wide": 600, "case.kind.sparse_ties": 600, "case.kind.sparse_wide": 600,
                  "case.kind.cross_polytope": 600, "case.kind.rips_int": 400, "case.kind.all_equal": 190, "case.kind.cycle_chords": 180,
                  "case.kind.vertex_driven": 200, "case.kind.sd_moore_z3": 100, "case.kind.sd_rp2": 90,
                  "_distinct_nontrivial": 4400},
        "thorough": {"case.some_delayed": 70000, "case.some_removed": 120000, "call.total": 300000, "call.some_delayed": 100000,
                     "call.some_removed": 200000, "edges.delayed": 600000, "edges.removed": 2500000,
                     "cmp.diagram.z2": 300000, "cmp.diagram.z3": 300000, "case.with_ties": 130000, "case.with_inf_edges": 10000,
                     "case.torsion_checked": 9000, "case.edges_ge_500": 1400, "bars.finite.dim3": 2500, "case.clique.10": 9000,
                     "call.build.flat_gcc": 10000, "call.build.dense_gcc": 10000,
                     "_distinct_nontrivial": 120000},
    },
    "exhaustive": {"quick": False, "thorough": False},
    "manifest": {
        "text": "Runtime monitor under ASan+UBSan: thousands of weighted graphs (complete/sparse/Rips/cross-polytope/cycle/vertex-driven on <= 10 "
                "vertices with heavy ties, negative and +inf weights; subdivided RP^2 / Z_3 Moore space / torus; 500-700-edge graphs that reach the "
                "parallel sort) are passed to flag_complex_collapse_edges under random vertex numberings, edge orders, orientations and range "
                "types, in the four builds {flat map, dense array} x {std::sort, TBB}. Every returned edge must be an input edge with a value not "
                "smaller than its input value, and the persistence diagram of the flag filtration of the returned graph must equal that of the "
                "input graph in every dimension up to the clique number over Z_2 and Z_3, both computed by an independent brute-force clique "
                "enumeration and textbook column reduction. Held on what was observed, not a proof.",
        "note": "trusted: harness/oracle/flag.h, harness/oracle/zp_reduce.h and the recursive clique enumerator of the harness (cross-checked on every "
                "small graph); vertices carry the same value before and after (the function does not handle vertex values); diagrams compared as "
                "value multisets without zero-length intervals; only the documented identity-delay overload; no NaN / -inf weights",
        "technique": "runtime monitoring: randomized and structured inputs, independent reference oracle (clique enumeration + Z_p column reduction) "
                     "on input and output of every call, 4 build variants, under AddressSanitizer/UBSan",
    },
}
for _b in _BUILDS:
    SPEC["floors"]["quick"]["call.build." + _b] = 2200
    SPEC["floors"]["quick"]["call.edges_ge_500.build." + _b] = 14
    SPEC["floors"]["thorough"]["call.build." + _b] = 60000
    SPEC["floors"]["thorough"]["call.edges_ge_500.build." + _b] = 300

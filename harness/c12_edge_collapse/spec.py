_CFG = {"small_int_double": {"quick": 1200, "thorough": 40000},
        "small_short_float": {"quick": 700, "thorough": 20000},
        "small_ushort_float": {"quick": 300, "thorough": 8000},
        "medium_int_double": {"quick": 200, "thorough": 6000},
        "big_int_double": {"quick": 28, "thorough": 600},
        "big_short_float": {"quick": 8, "thorough": 200},
        # integral filtration values (c12_integral.cpp)
        "small_int_int": {"quick": 400, "thorough": 12000},
        "small_short_short": {"quick": 250, "thorough": 8000},
        "small_int_unsigned": {"quick": 200, "thorough": 6000},
        "small_long_long": {"quick": 200, "thorough": 6000},
        "medium_int_int": {"quick": 40, "thorough": 1500},
        # the Python binding's instantiations through the extended call shapes (c12_shapes.cpp)
        "small_long_double": {"quick": 300, "thorough": 8000},
        "small_int_float": {"quick": 300, "thorough": 8000},
        # 1-byte vertex types, special weights, mid-size dense graphs (c12_misc.cpp)
        "small_schar_float": {"quick": 250, "thorough": 8000},
        "small_uchar_float": {"quick": 250, "thorough": 8000},
        "special_int_double": {"quick": 600, "thorough": 20000},
        "mid_int_double": {"quick": 20, "thorough": 500},
        "mid_short_float": {"quick": 8, "thorough": 200}}
_CFG_GCC = {"small_int_double": {"thorough": 10000}, "small_ushort_float": {"thorough": 3000}, "medium_int_double": {"thorough": 1000},
            "big_int_double": {"thorough": 100}, "small_int_int": {"thorough": 3000}, "small_long_double": {"thorough": 3000}}
_BUILDS = ["flat", "dense", "flat_tbb", "dense_tbb"]


def _unit(name, defs, libs, variant="asan", cfg=_CFG, tiers=("quick", "thorough")):
    # config names carry the unit name: the orchestrator keys its shard output files by config name only, and the
    # units (same source, different -D) run concurrently
    return {"name": name, "src": ["c12_edge_collapse.cpp", "c12_integral.cpp", "c12_shapes.cpp", "c12_misc.cpp"], "variant": variant, "defs": defs + ["C12_BUILD=" + name], "libs": libs,
            "configs": {name + "." + k: v for k, v in cfg.items()}, "chunk": 4, "tiers": list(tiers)}


SPEC = {
    "property": "C12",
    "rule": "one case = one weighted graph handed to Gudhi::collapse::flag_complex_collapse_edges (the documented one-argument overload) "
            "as a shuffled list of randomly oriented edges in a std::vector / std::list / std::deque (small_long_double and small_int_float, "
            "the two instantiations of the Python binding, also: rvalue vector / rvalue list with the two-argument overload and the identity "
            "delay, rvalue vector with the one-argument overload, boost::irange | transformed yielding prvalue tuples). small_*: 2..10 vertices (11 sometimes in "
            "thorough) of kinds {complete, sparse G(n,p), all-equal weights, Rips graph of integer points (squared distances), cross-polytope "
            "(spheres up to dimension 4) with late antipodal edges, cycle with chords, vertex-driven weights max(a_i,a_j), tiny}; weights "
            "are multiples of 1/4 on a wide grid, 2-3 levels or all equal (heavy ties), optionally negative or shifted, 1 case in 12 with some "
            "+inf edges; every graph is collapsed twice, under two random vertex numberings (a permutation of 0..n-1 or sparse labels up to "
            "60/300), the second call being on the returned graph itself in 1/3 of the cases; vertex/value types int/double, short/float, "
            "unsigned short/float, long/double, int/float, signed char/float and unsigned char/float (half of the numberings contain the label "
            "127 / 255), and in the flat builds a quarter of the short / unsigned short numberings contain 32767 / 65535. Integral value types "
            "(small_int_int, small_short_short, small_int_unsigned, small_long_long, medium_int_int): the same graphs with every weight "
            "multiplied by 4 (translated to >= 0 for unsigned), no +inf edges. special_int_double: the small graphs with weights redrawn "
            "from {-inf}, {+0.0,-0.0}, {+-DBL_MAX, +-DBL_MIN, denormals}, non-dyadic reals (0.1, 0.3, 1/3, uniform in (-3,3)) or a mixture "
            "with +inf. mid_*: 12..22 vertices (H_0..H_2 compared, oracle truncated to the 3-skeleton) or 23..40 vertices (H_0..H_1 from the "
            "2-skeleton; >= 500 edges when complete on >= 33 vertices): complete graphs, G(n,p) with p in [0.5,0.95], Rips graphs of uniform real points in "
            "[0,1]^d with Euclidean (square-root, non-dyadic) distances, complete or thresholded; a second pass on the output in 1/3. medium_*: graph of the barycentric subdivision of the 6-vertex RP^2, of a 13-vertex Moore space M(Z_3,1) or "
            "of the 7-vertex torus (31..79 vertices) with random or vertex-driven weights and random extra edges, so that the Z_2 and Z_3 "
            "diagrams differ. big_*: 510..700 edges (the size from which tbb::parallel_sort really runs in parallel): unions of small graphs "
            "with interleaved labels, optionally bridged, sparse random blobs, Rips blobs of integer points. For every call: each returned "
            "edge is an input edge (unordered), returned once, with value >= its input value; the flag filtration of the returned graph on the "
            "same vertices with the same vertex values (all equal to / below the smallest edge, or per vertex <= its smallest incident edge) "
            "has in every dimension up to the clique number the same diagram {(dim, birth, death)} (zero-length dropped) as that of the input, "
            "over Z_2 and over Z_3; diagrams come from brute-force clique enumeration + textbook column reduction. Same source built with / "
            "without GUDHI_COLLAPSE_USE_DENSE_ARRAY and with / without GUDHI_USE_TBB (4 clang ASan+UBSan builds; 2 more with g++ in thorough). "
            "non-trivial = the clique number is >= 3 and at least one edge was delayed or removed; distinct by hash of (build.config, graph).",
    "assumptions": [
        "vertex values are not an input of the function (its documentation: 'the filtration value of vertices is irrelevant'); the monitor gives "
        "every vertex the same value in the input and in the output filtration, never above its smallest incident input edge",
        "diagrams are compared as multisets of (dimension, birth value, death value) without zero-length intervals; a death at +inf is the same "
        "as no death, so +inf edges are equivalent to absent ones for the comparison",
        "no loops and no repeated edges (in either orientation): the C++ documentation is silent, the Python docstring of "
        "gudhi.flag_filtration.edge_collapse.reduce_graph, which calls this function, says 'Listing the same edge twice, or a self-loop, is "
        "undefined'",
        "no NaN weights; vertex labels >= 0; every weight is exactly representable in the value type of the call (float configs: dyadic "
        "or rounded to float first); -inf, +-0.0, +-DBL_MAX, denormal and non-dyadic weights only with double values (special_int_double, "
        "mid_*_double); integral value types: weights strictly between numeric_limits::lowest() and max() (those two are what the "
        "repaired code uses as sentinels, as +-inf are for floating types; a +inf double edge is likewise equivalent to no edge)",
        "the two-argument overload (undocumented, used by the Python binding) is only driven with the identity delay",
        "mid-size dense graphs (12..40 vertices): only H_0..H_2 (H_0..H_1 from 23 vertices) are compared, higher dimensions are beyond the "
        "brute-force oracle; label 32767 / 65535 only in the flat builds (the dense table would need (max label + 1)^2 cells)",
        "the order in which equal-valued edges are processed (std::sort / tbb::parallel_sort are not stable) may change the returned edges; "
        "the property is required of whatever is returned, no particular edge list is expected",
        "trusted: oracle/flag.h, oracle/zp_reduce.h, the recursive clique enumerator in c12_common.h (cross-checked against oracle/flag.h on every "
        "graph with <= 10 vertices), libstdc++",
    ],
    "units": [
        _unit("flat", [], []),
        _unit("dense", ["GUDHI_COLLAPSE_USE_DENSE_ARRAY"], []),
        _unit("flat_tbb", ["GUDHI_USE_TBB"], ["-ltbb"]),
        _unit("dense_tbb", ["GUDHI_COLLAPSE_USE_DENSE_ARRAY", "GUDHI_USE_TBB"], ["-ltbb"]),
        _unit("flat_gcc", [], [], "gasan", _CFG_GCC, ("thorough",)),
        _unit("dense_gcc", ["GUDHI_COLLAPSE_USE_DENSE_ARRAY"], [], "gasan", _CFG_GCC, ("thorough",)),
    ],
    # about half of what a normal run measures (quick: 21016 cases, 42400 calls); the two first ones are the >= 30 % of DESIGN.md
    "floors": {
        "quick": {"case.some_delayed": 2900, "case.some_removed": 4300, "call.total": 9000, "call.some_delayed": 3000,
                  "call.some_removed": 7000, "call.delayed_and_removed": 2800, "call.second_pass": 1400,
                  "edges.delayed": 20000, "edges.removed": 90000, "edges.kept_unchanged": 160000,
                  "cmp.diagram.z2": 9000, "cmp.diagram.z3": 9000, "cmp.oracle_crosscheck": 4300, "cmp.output.edge_of_input": 180000,
                  "case.with_ties": 4300, "case.with_inf_edges": 300, "case.torsion_checked": 300, "case.torsion_checked_and_changed": 300,
                  "case.edges_ge_500": 70, "case.vmode.1": 1200, "case.vmode.2": 1200,
                  "numbering.sparse": 4500, "numbering.compact": 4500, "container.list": 2200, "container.deque": 2200, "container.vector": 4500,
                  "case.clique.10": 300, "case.clique.3": 750, "bars.finite.dim1": 14000, "bars.finite.dim2": 900, "bars.finite.dim3": 80,
                  "bars.essential.dim2": 1800, "bars.essential.dim3": 300,
                  "case.kind.complete_ties": 600, "case.kind.complete_wide": 600, "case.kind.sparse_ties": 600, "case.kind.sparse_wide": 600,
                  "case.kind.cross_polytope": 600, "case.kind.rips_int": 400, "case.kind.all_equal": 190, "case.kind.cycle_chords": 180,
                  "case.kind.vertex_driven": 200, "case.kind.sd_moore_z3": 100, "case.kind.sd_rp2": 90,
                  # integral value types, per type and per build (the dense builds are where numeric_limits<int>::infinity() == 0 bit)
                  "case.integral_values": 2100, "case.integral_values.int": 850, "case.integral_values.short": 480,
                  "case.integral_values.unsigned": 380, "case.integral_values.long": 380, "case.integral_values.negative": 300,
                  # vertex labels at the top of the vertex type
                  "numbering.top_of_type.schar": 450, "numbering.top_of_type.uchar": 450, "numbering.top_of_type.short": 450,
                  "numbering.top_of_type.ushort": 130,
                  # call shapes of the Python binding / Simplex_tree_interface / utilities
                  "container.rvalue_vector_2arg": 500, "container.prvalue_transformed": 260, "container.rvalue_list_2arg": 250,
                  "container.rvalue_vector_1arg": 250,
                  # special floating-point weights
                  "case.special.neg_inf": 220, "case.special.signed_zeros": 220, "case.special.huge_tiny": 220,
                  "case.special.non_dyadic": 220, "case.special.mixed": 220, "case.with_neg_inf_edges": 330,
                  "case.with_mixed_signed_zeros": 400, "case.with_dbl_max_edges": 500, "case.with_non_dyadic_edges": 600,
                  "weights.denormal": 1200,
                  # mid-size dense graphs with the truncated oracle
                  "call.mid": 70, "case.mid.n_12_22.h0_h2": 24, "case.mid.n_23_32.h0_h1": 5, "case.mid.n_33_40.h0_h1": 19, "case.mid.edges_ge_500": 14,
                  "case.mid.some_removed": 55, "case.kind.mid_complete": 13, "case.kind.mid_gnp_dense": 8,
                  "case.kind.mid_rips_real_complete": 15, "case.kind.mid_rips_real_thresholded": 10,
                  "_distinct_nontrivial": 4400},
        "thorough": {"case.some_delayed": 70000, "case.some_removed": 120000, "call.total": 300000, "call.some_delayed": 100000,
                     "call.some_removed": 200000, "edges.delayed": 600000, "edges.removed": 2500000,
                     "cmp.diagram.z2": 300000, "cmp.diagram.z3": 300000, "case.with_ties": 130000, "case.with_inf_edges": 10000,
                     "case.torsion_checked": 9000, "case.edges_ge_500": 1400, "bars.finite.dim3": 2500, "case.clique.10": 9000,
                     "call.build.flat_gcc": 10000, "call.build.dense_gcc": 10000,
                     # new input classes: 10 x the quick floors (the thorough configs are 25-33 x the quick ones)
                     "case.integral_values": 21000, "case.integral_values.unsigned": 3800, "case.integral_values.negative": 3000,
                     "numbering.top_of_type.schar": 4500, "numbering.top_of_type.uchar": 4500, "numbering.top_of_type.short": 4500,
                     "numbering.top_of_type.ushort": 1300, "container.rvalue_vector_2arg": 5000, "container.prvalue_transformed": 2600,
                     "case.with_neg_inf_edges": 3300, "case.with_mixed_signed_zeros": 4000, "case.with_dbl_max_edges": 5000,
                     "case.with_non_dyadic_edges": 6000, "call.mid": 700, "case.mid.edges_ge_500": 60,
                     "call.integral_values.build.dense_gcc": 2500,
                     "_distinct_nontrivial": 120000},
    },
    "exhaustive": {"quick": False, "thorough": False},
    "manifest": {
        "text": "Runtime monitor under ASan+UBSan: thousands of weighted graphs (complete/sparse/Rips/cross-polytope/cycle/vertex-driven on <= 10 "
                "vertices with heavy ties, negative and +inf weights; subdivided RP^2 / Z_3 Moore space / torus; 500-700-edge graphs that reach the "
                "parallel sort; complete / dense random / real-point Rips graphs on 12..40 vertices) are passed to flag_complex_collapse_edges "
                "under random vertex numberings (including the largest label of 1- and 2-byte vertex types), edge orders, orientations, range "
                "types and call shapes (lvalue containers, the rvalue / two-argument forms of the Python binding, prvalue-tuple ranges), with "
                "double, float and integral (int, short, unsigned, long) filtration values, and with -inf, signed-zero, +-DBL_MAX, denormal and "
                "non-dyadic double weights, in the four builds {flat map, dense array} x {std::sort, TBB}. Every returned edge must be an input edge with a value not "
                "smaller than its input value, and the persistence diagram of the flag filtration of the returned graph must equal that of the "
                "input graph in every dimension up to the clique number (H_0..H_2 / H_0..H_1 for the 12..40-vertex dense graphs) over Z_2 and Z_3, both computed by an independent brute-force clique "
                "enumeration and textbook column reduction. Held on what was observed, not a proof.",
        "note": "trusted: harness/oracle/flag.h, harness/oracle/zp_reduce.h and the recursive clique enumerator of the harness (cross-checked on every "
                "small graph); vertices carry the same value before and after (the function does not handle vertex values); diagrams compared as "
                "value multisets without zero-length intervals; identity delay only; no NaN weights, no loops, no repeated edges (undefined per the "
                "Python docstring); integral weights strictly inside the range of their type",
        "technique": "runtime monitoring: randomized and structured inputs, independent reference oracle (clique enumeration + Z_p column reduction) "
                     "on input and output of every call, 4 build variants, under AddressSanitizer/UBSan",
    },
}
for _b in _BUILDS:
    SPEC["floors"]["quick"]["call.build." + _b] = 2200
    SPEC["floors"]["quick"]["call.edges_ge_500.build." + _b] = 14
    SPEC["floors"]["quick"]["call.integral_values.build." + _b] = 1000
    SPEC["floors"]["thorough"]["call.integral_values.build." + _b] = 10000
    SPEC["floors"]["thorough"]["call.build." + _b] = 60000
    SPEC["floors"]["thorough"]["call.edges_ge_500.build." + _b] = 300

// C12 harness, third translation unit of every build: the two instantiations of the Python binding (Vertex = int with float
// values, Vertex = py::ssize_t = long with double values) driven through the extended call shapes: rvalue vector / list with the
// two-argument overload (identity), rvalue vector with the one-argument overload, boost::irange | transformed (prvalue tuples).
#ifndef C12_BUILD
#error "C12_BUILD must be defined by spec.py"
#endif
#define C12_STR2(x) #x
#define C12_STR(x) C12_STR2(x)
#define C12_BUILD_NAME C12_STR(C12_BUILD)
#include "c12_common.h"

static void small_long_double(vh::Case& c) { c12::small_case<long, double, true>(c, "long"); }
static void small_int_float(vh::Case& c) { c12::small_case<int, float, true>(c, "int"); }

VH_CONFIG(C12_STR(C12_BUILD) ".small_long_double", small_long_double);
VH_CONFIG(C12_STR(C12_BUILD) ".small_int_float", small_int_float);

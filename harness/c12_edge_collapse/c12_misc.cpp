// C12 harness, fourth translation unit of every build: 1-byte vertex types (labels up to 127 / 255), special floating-point
// weights (-inf, +-0.0, +-DBL_MAX, denormals, non-dyadic reals), mid-size dense graphs (12..40 vertices, truncated oracle).
#ifndef C12_BUILD
#error "C12_BUILD must be defined by spec.py"
#endif
#define C12_STR2(x) #x
#define C12_STR(x) C12_STR2(x)
#define C12_BUILD_NAME C12_STR(C12_BUILD)
#include "c12_common.h"

static void small_schar_float(vh::Case& c) { c12::small_case<signed char, float>(c, "schar"); }
static void small_uchar_float(vh::Case& c) { c12::small_case<unsigned char, float>(c, "uchar"); }
static void special_int_double(vh::Case& c) { c12::small_case<int, double>(c, "int", true); }
static void mid_int_double(vh::Case& c) { c12::mid_case<int, double>(c, "int"); }
static void mid_short_float(vh::Case& c) { c12::mid_case<short, float>(c, "short"); }

VH_CONFIG(C12_STR(C12_BUILD) ".small_schar_float", small_schar_float);
VH_CONFIG(C12_STR(C12_BUILD) ".small_uchar_float", small_uchar_float);
VH_CONFIG(C12_STR(C12_BUILD) ".special_int_double", special_int_double);
VH_CONFIG(C12_STR(C12_BUILD) ".mid_int_double", mid_int_double);
VH_CONFIG(C12_STR(C12_BUILD) ".mid_short_float", mid_short_float);

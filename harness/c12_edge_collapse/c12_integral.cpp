// C12 harness, second translation unit of every build: integral filtration value types.
// numeric_limits<Filt>::infinity() is 0 for them, which is what the "no edge" / "always there" sentinels of the collapser used.
#ifndef C12_BUILD
#error "C12_BUILD must be defined by spec.py"
#endif
#define C12_STR2(x) #x
#define C12_STR(x) C12_STR2(x)
#define C12_BUILD_NAME C12_STR(C12_BUILD)
#include "c12_common.h"

static void small_int_int(vh::Case& c) { c12::small_case<int, int>(c, "int"); }
static void small_short_short(vh::Case& c) { c12::small_case<short, short>(c, "short"); }
static void small_int_unsigned(vh::Case& c) { c12::small_case<int, unsigned>(c, "int"); }
static void small_long_long(vh::Case& c) { c12::small_case<long, long>(c, "long"); }
static void medium_int_int(vh::Case& c) { c12::medium_case<int, int>(c, "int"); }

VH_CONFIG(C12_STR(C12_BUILD) ".small_int_int", small_int_int);
VH_CONFIG(C12_STR(C12_BUILD) ".small_short_short", small_short_short);
VH_CONFIG(C12_STR(C12_BUILD) ".small_int_unsigned", small_int_unsigned);
VH_CONFIG(C12_STR(C12_BUILD) ".small_long_long", small_long_long);
VH_CONFIG(C12_STR(C12_BUILD) ".medium_int_int", medium_int_int);
